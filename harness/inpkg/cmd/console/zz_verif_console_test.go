package main

// Replay harness for C20 (kept in /verif, compiled into package main of
// cmd/console through `go test -overlay`).  It feeds TLC-generated key
// sequences (Console.tla / ConsoleMC.tla) to the real Terminal.ReadLine under
// several read schedules and reports what ReadLine handed back.  It only
// executes and reports: what is right is decided by the specification.
//
// VERIF_C20_SCN   scenario file, one JSON object per line: {"id":n,"keys":[byte values; 13 = Enter]}
// VERIF_C20_OUT   result file, one JSON object per scenario
// VERIF_C20_MODES comma separated read schedules (default: the six basic ones); a scenario may name its own

import (
	"bufio"
	"encoding/json"
	"fmt"
	"io"
	"os"
	"strconv"
	"strings"
	"testing"
)

type vcScenario struct {
	ID    int      `json:"id"`
	Keys  []int    `json:"keys"`
	Modes []string `json:"modes,omitempty"` // read schedules for this scenario (default: VERIF_C20_MODES)
}

// vcRun is the outcome of one scenario under one or more read schedules
// (schedules with identical outcomes are grouped to keep the file small).
type vcRun struct {
	Modes []string `json:"m"`
	Obs   [][]int  `json:"obs"`            // statements handed back, in order, as byte values
	Calls int      `json:"calls"`          // ReadLine calls made
	Paste int      `json:"paste"`          // calls that returned ErrPasteIndicator
	Err   string   `json:"err,omitempty"`  // anything but a clean io.EOF at the end of input
	Left  []int    `json:"left,omitempty"` // edit buffer left behind at end of input
}

type vcResult struct {
	ID   int     `json:"id"`
	Runs []vcRun `json:"r"`
}

// vcConn is the terminal's io.ReadWriter: reads are served chunk by chunk
// (never across a chunk boundary), writes are discarded.
type vcConn struct {
	chunks [][]byte
}

func (c *vcConn) Read(p []byte) (int, error) {
	for len(c.chunks) > 0 && len(c.chunks[0]) == 0 {
		c.chunks = c.chunks[1:]
	}
	if len(c.chunks) == 0 {
		return 0, io.EOF
	}
	n := copy(p, c.chunks[0])
	c.chunks[0] = c.chunks[0][n:]
	return n, nil
}

func (c *vcConn) Write(p []byte) (int, error) { return len(p), nil }

var vcAllModes = []string{"typed", "lines", "paste", "bracketed", "bracketed_enter", "bracketed4"}

// vcChunks renders a key sequence as the reads the terminal will see.
//
//	typed            one key per read
//	lines            one read per line (each ends with its Enter)
//	paste            everything in one read, no paste markers
//	bracketed        ESC[200~ everything ESC[201~ in one read
//	bracketed_enter  ESC[200~ everything but the final Enter ESC[201~ in one read, then Enter typed
//	bracketed4       the bracketed stream delivered four bytes per read
//	crlf_<mode>      <mode> with every Enter sent as CR LF
//	max<N>           the plain stream through a reader that returns at most N bytes per Read
//	                 (input arriving faster than it is consumed: a long paste or piped input)
func vcChunks(mode string, keys []byte) [][]byte {
	cp := func(b []byte) []byte { return append([]byte(nil), b...) }
	if strings.HasPrefix(mode, "crlf_") {
		// every line end arrives as CR LF (text pasted from a file with such line ends): one line break all the same,
		// wherever the reads happen to cut the stream - also between the two bytes
		var wide []byte
		for _, k := range keys {
			wide = append(wide, k)
			if k == keyEnter {
				wide = append(wide, '\n')
			}
		}
		return vcChunks(mode[5:], wide)
	}
	if strings.HasPrefix(mode, "max") {
		n, err := strconv.Atoi(mode[3:])
		if err != nil || n < 1 {
			panic("bad mode " + mode)
		}
		var out [][]byte
		b := keys
		for len(b) > n {
			out = append(out, cp(b[:n]))
			b = b[n:]
		}
		return append(out, cp(b))
	}
	switch mode {
	case "typed":
		var out [][]byte
		for _, k := range keys {
			out = append(out, []byte{k})
		}
		return out
	case "lines":
		var out [][]byte
		start := 0
		for i, k := range keys {
			if k == keyEnter {
				out = append(out, cp(keys[start:i+1]))
				start = i + 1
			}
		}
		if start < len(keys) {
			out = append(out, cp(keys[start:]))
		}
		return out
	case "paste":
		return [][]byte{cp(keys)}
	case "bracketed":
		b := cp(pasteStart)
		b = append(b, keys...)
		b = append(b, pasteEnd...)
		return [][]byte{b}
	case "bracketed_enter":
		n := len(keys)
		if n == 0 || keys[n-1] != keyEnter {
			return vcChunks("bracketed", keys)
		}
		b := cp(pasteStart)
		b = append(b, keys[:n-1]...)
		b = append(b, pasteEnd...)
		return [][]byte{b, {keyEnter}}
	case "bracketed4":
		b := vcChunks("bracketed", keys)[0]
		var out [][]byte
		for len(b) > 4 {
			out = append(out, cp(b[:4]))
			b = b[4:]
		}
		return append(out, cp(b))
	}
	panic("unknown mode " + mode)
}

func vcBytes(s string) []int {
	out := make([]int, 0, len(s))
	for i := 0; i < len(s); i++ {
		out = append(out, int(s[i]))
	}
	return out
}

func vcExec(mode string, keys []byte) (run vcRun) {
	run.Obs = [][]int{}
	defer func() {
		if r := recover(); r != nil {
			run.Err = fmt.Sprintf("panic: %v", r)
		}
	}()
	conn := &vcConn{chunks: vcChunks(mode, keys)}
	term := NewTerminal(conn, "> ")
	limit := 2*len(keys) + 16
	for {
		if run.Calls >= limit {
			run.Err = "ReadLine still returning after the input was exhausted"
			break
		}
		lines, err := term.ReadLine()
		run.Calls++
		for _, l := range lines {
			run.Obs = append(run.Obs, vcBytes(l))
		}
		if err == ErrPasteIndicator {
			run.Paste++
			continue
		}
		if err == io.EOF {
			break
		}
		if err != nil {
			run.Err = err.Error()
			break
		}
	}
	if len(term.line) > 0 {
		run.Left = vcBytes(string(term.line))
	}
	return run
}

func vcSame(a, b vcRun) bool {
	if a.Err != b.Err || len(a.Obs) != len(b.Obs) || len(a.Left) != len(b.Left) {
		return false
	}
	eq := func(x, y []int) bool {
		if len(x) != len(y) {
			return false
		}
		for i := range x {
			if x[i] != y[i] {
				return false
			}
		}
		return true
	}
	for i := range a.Obs {
		if !eq(a.Obs[i], b.Obs[i]) {
			return false
		}
	}
	return eq(a.Left, b.Left)
}

func TestVerifConsole(t *testing.T) {
	scn, out := os.Getenv("VERIF_C20_SCN"), os.Getenv("VERIF_C20_OUT")
	if scn == "" || out == "" {
		t.Skip("VERIF_C20_SCN / VERIF_C20_OUT not set")
	}
	modes := vcAllModes
	if m := os.Getenv("VERIF_C20_MODES"); m != "" {
		modes = strings.Split(m, ",")
	}
	in, err := os.Open(scn)
	if err != nil {
		t.Fatal(err)
	}
	defer in.Close()
	of, err := os.Create(out)
	if err != nil {
		t.Fatal(err)
	}
	w := bufio.NewWriterSize(of, 1<<20)
	sc := bufio.NewScanner(in)
	sc.Buffer(make([]byte, 1<<20), 1<<24)
	n := 0
	for sc.Scan() {
		if len(sc.Bytes()) == 0 {
			continue
		}
		var s vcScenario
		if err := json.Unmarshal(sc.Bytes(), &s); err != nil {
			t.Fatalf("bad scenario line %d: %v", n+1, err)
		}
		keys := make([]byte, len(s.Keys))
		for i, k := range s.Keys {
			keys[i] = byte(k)
		}
		res := vcResult{ID: s.ID}
		use := modes
		if len(s.Modes) > 0 {
			use = s.Modes
		}
		for _, m := range use {
			r := vcExec(m, keys)
			merged := false
			for i := range res.Runs {
				if vcSame(res.Runs[i], r) {
					res.Runs[i].Modes = append(res.Runs[i].Modes, m)
					res.Runs[i].Calls += r.Calls
					res.Runs[i].Paste += r.Paste
					merged = true
					break
				}
			}
			if !merged {
				r.Modes = []string{m}
				res.Runs = append(res.Runs, r)
			}
		}
		b, err := json.Marshal(res)
		if err != nil {
			t.Fatal(err)
		}
		w.Write(b)
		w.WriteByte('\n')
		n++
	}
	if err := sc.Err(); err != nil {
		t.Fatal(err)
	}
	if err := w.Flush(); err != nil {
		t.Fatal(err)
	}
	if err := of.Close(); err != nil {
		t.Fatal(err)
	}
	fmt.Printf("VERIF_C20 scenarios=%d modes=%d\n", n, len(modes))
}
