module verifharness

go 1.18

require github.com/mk6i/mkdb v0.0.0

replace github.com/mk6i/mkdb => /repo
