//go:build verif

package storage

// Accessors for the verification harness (added to the package through
// `go build -overlay`; not part of the repository). Value store driver: C08.

import "fmt"

// VerifValAutoFlushOff switches the 100 ms background flusher off for every
// fileStore opened afterwards in this process (hook H1), so that flushes
// happen only where a scenario says so.
func VerifValAutoFlushOff() {
	verifHookAutoFlush = func(bool) bool { return false }
}

// VerifValFlush is fileStore.flushPages: every dirty page and the header are written.
func VerifValFlush(rs *RelationService) error {
	if rs == nil || rs.fs == nil {
		return fmt.Errorf("no open store")
	}
	return rs.fs.flushPages()
}

// VerifValEvictAll flushes and then replaces the page cache by an empty one,
// so that every later access decodes its page from the file.
func VerifValEvictAll(rs *RelationService) error {
	if err := VerifValFlush(rs); err != nil {
		return err
	}
	rs.fs.lockExclusive()
	rs.fs.cache = NewLRU(10000)
	rs.fs.unlockExclusive()
	return nil
}

// VerifValCached is the number of pages resident in the cache; VerifValDirty
// the number of those that are dirty.
func VerifValCached(rs *RelationService) (cached int, dirty int) {
	if rs == nil || rs.fs == nil {
		return 0, 0
	}
	for _, e := range rs.fs.cache.cache {
		cached++
		if e.Value.(*cacheEntry).val.isDirty() {
			dirty++
		}
	}
	return
}

// VerifValFlusherOn reports whether the store runs the background flusher.
func VerifValFlusherOn(rs *RelationService) bool {
	return rs != nil && rs.fs != nil && rs.fs.autoFlushCache
}
