//go:build verif

package storage

// Accessors for the verification harness (added to the package through
// `go build -overlay`; not part of the repository). LRU cache driver: C15.

// VerifLRU drives a real LRUCache with pages identified by an integer tag.
type VerifLRU struct {
	c *LRUCache
}

func VerifNewLRU(capacity int) *VerifLRU {
	return &VerifLRU{c: NewLRU(capacity)}
}

// Set stores a page with content tag v and the given dirty flag. When the resident page of that key has this very content
// the resident OBJECT is stored again (what fileStore.update does with every page a flush wrote); otherwise a fresh object.
// Pages of both kinds occur (even keys are internal pages): which kind a page is must not matter to the cache.
func (v *VerifLRU) Set(key uint64, tag uint64, dirty bool) bool {
	if n := v.node(key); n != nil && n.lastLSN == tag {
		n.dirty = dirty
		return v.c.set(key, n)
	}
	n := &btreeNode{fileOffset: key, lastLSN: tag, isLeaf: key%2 == 1, dirty: dirty}
	return v.c.set(key, n)
}

// Get looks a key up through the cache's own get (which refreshes recency).
func (v *VerifLRU) Get(key uint64) (tag uint64, ok bool) {
	n, ok := v.c.get(key)
	if !ok || n == nil {
		return 0, ok
	}
	return n.lastLSN, true
}

// node returns the resident page object without touching recency.
func (v *VerifLRU) node(key uint64) *btreeNode {
	e, ok := v.c.cache[key]
	if !ok {
		return nil
	}
	return e.Value.(*cacheEntry).val
}

func (v *VerifLRU) MarkDirty(key uint64) bool {
	n := v.node(key)
	if n == nil {
		return false
	}
	n.dirty = true
	return true
}

func (v *VerifLRU) MarkClean(key uint64) bool {
	n := v.node(key)
	if n == nil {
		return false
	}
	n.markClean()
	return true
}

// Order returns resident keys, most recently used first, and the dirty ones.
func (v *VerifLRU) Order() (order []uint64, dirty []uint64, tags []uint64) {
	for e := v.c.list.Front(); e != nil; e = e.Next() {
		ce := e.Value.(*cacheEntry)
		order = append(order, ce.key.(uint64))
		tags = append(tags, ce.val.lastLSN)
		if ce.val.isDirty() {
			dirty = append(dirty, ce.key.(uint64))
		}
	}
	return
}

// Len is the number of entries in the lookup map (must equal len(Order())).
func (v *VerifLRU) Len() int { return len(v.c.cache) }
