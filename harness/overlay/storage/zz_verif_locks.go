//go:build verif

package storage

// Event sink for the lock-protocol traces (C13): every hook at a
// linearization point reports its kind to one function.

// VerifSetEventSink routes lock events (S+ S- X? X+ X-), first-change events
// (dirty), data-file writes (page, hdr) and log writes (wlen, wbody, wsync)
// to fn; nil removes the sink.
func VerifSetEventSink(fn func(kind string)) {
	if fn == nil {
		verifHookEv, verifHookDirty, verifHookIO, verifHookWalIO = nil, nil, nil, nil
		return
	}
	verifHookEv = func(f *fileStore, kind string) { fn(kind) }
	verifHookDirty = func(n *btreeNode) { fn("dirty") }
	verifHookIO = func(f *fileStore, kind string, off int64, b []byte) { fn(kind) }
	verifHookWalIO = func(w *wal, kind string, b []byte) { fn("w" + kind) }
}
