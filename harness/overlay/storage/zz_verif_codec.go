//go:build verif

package storage

// Accessors for the verification harness (added to the package through
// `go build -overlay`; not part of the repository). Page codec driver: C12.
//
// Nodes are built with the package's own cell operations (insertLeafCell,
// appendInternalCell, insertInternalCell, split, updateCell), stored with
// fileStore.update and read back with fileStore.fetch; this file only
// forwards calls and copies fields out.

import (
	"bytes"
	"fmt"
)

const (
	VerifCodecPageSize = pageSize
	VerifCodecLeafCap  = maxLeafNodeCells
	VerifCodecIntCap   = maxInternalNodeCells
	VerifCodecMaxValue = maxValueSize
)

type VerifCodecNode struct{ n *btreeNode }

// VerifCodecCell is one cell as seen through the offsets array.
type VerifCodecCell struct {
	Key       uint32
	Deleted   bool
	ValueSize uint32
	ValueLen  int    // len(valueBytes)
	Value     []byte // copy of valueBytes; nil when longer than a page (a page decoded with a garbage length field)
	Child     uint64
}

// VerifCodecContent is the logical content of a node: header fields and the
// cells in key order (offsets order). Offsets/Phys describe the physical
// arrangement and are informational.
type VerifCodecContent struct {
	Leaf       bool
	FileOffset uint64
	LastLSN    uint64
	HasLSib    bool
	HasRSib    bool
	LSib       uint64
	RSib       uint64
	Right      uint64
	Cells      []VerifCodecCell
	Offsets    []uint16
	Phys       int
}

func verifCodecRecover(err *error) {
	if r := recover(); r != nil {
		*err = fmt.Errorf("panic: %v", r)
	}
}

func VerifCodecNewNode(leaf bool) *VerifCodecNode {
	return &VerifCodecNode{n: &btreeNode{isLeaf: leaf}}
}

// InsertLeaf adds a cell the way BTree.insertLeaf does.
func (v *VerifCodecNode) InsertLeaf(key uint32, val []byte) (err error) {
	defer verifCodecRecover(&err)
	off, found := v.n.findCellOffsetByKey(key)
	if found {
		return fmt.Errorf("key %d exists", key)
	}
	return v.n.insertLeafCell(uint32(off), key, val)
}

// UpdateLeaf replaces the value of the cell with the given key through
// btreeNode.updateCell (what UPDATE and log replay do to a cached page).
func (v *VerifCodecNode) UpdateLeaf(key uint32, val []byte) (err error) {
	defer verifCodecRecover(&err)
	return v.n.updateCell(key, val)
}

func (v *VerifCodecNode) AppendInternal(key uint32, child uint64) (err error) {
	defer verifCodecRecover(&err)
	return v.n.appendInternalCell(key, child)
}

// InsertInternal adds a cell in the middle the way BTree.insertLeaf does for
// a split of a leaf that is not the right-most child.
func (v *VerifCodecNode) InsertInternal(key uint32, child uint64) (err error) {
	defer verifCodecRecover(&err)
	off, found := v.n.findCellOffsetByKey(key)
	if found {
		return fmt.Errorf("key %d exists", key)
	}
	if off == len(v.n.offsets) {
		return v.n.appendInternalCell(key, child)
	}
	return v.n.insertInternalCell(uint32(off), key, child)
}

// Split runs btreeNode.split into a fresh node and returns it with the promoted key.
func (v *VerifCodecNode) Split() (right *VerifCodecNode, key uint32, err error) {
	defer verifCodecRecover(&err)
	np := &btreeNode{isLeaf: v.n.isLeaf}
	key, err = v.n.split(np)
	return &VerifCodecNode{n: np}, key, err
}

func (v *VerifCodecNode) Count() int { return len(v.n.offsets) }

// SetDeleted sets the tombstone of the pos-th cell in key order.
func (v *VerifCodecNode) SetDeleted(pos int, d bool) (err error) {
	defer verifCodecRecover(&err)
	v.n.leafCells[v.n.offsets[pos]].deleted = d
	return nil
}

func (v *VerifCodecNode) SetHeader(off, lsn uint64, hasL, hasR bool, l, r uint64) {
	v.n.fileOffset = off
	v.n.lastLSN = lsn
	if v.n.isLeaf {
		v.n.hasLSib, v.n.hasRSib, v.n.lSibFileOffset, v.n.rSibFileOffset = hasL, hasR, l, r
	}
}

func (v *VerifCodecNode) SetRight(right uint64) { v.n.rightOffset = right }

func (v *VerifCodecNode) Content() (c VerifCodecContent, err error) {
	defer verifCodecRecover(&err)
	n := v.n
	c = VerifCodecContent{Leaf: n.isLeaf, FileOffset: n.fileOffset, LastLSN: n.lastLSN, HasLSib: n.hasLSib, HasRSib: n.hasRSib,
		LSib: n.lSibFileOffset, RSib: n.rSibFileOffset, Right: n.rightOffset, Offsets: append([]uint16{}, n.offsets...)}
	if n.isLeaf {
		c.Phys = len(n.leafCells)
		for _, o := range n.offsets {
			lc := n.leafCells[o]
			cell := VerifCodecCell{Key: lc.key, Deleted: lc.deleted, ValueSize: lc.valueSize, ValueLen: len(lc.valueBytes)}
			if len(lc.valueBytes) <= pageSize {
				cell.Value = append([]byte{}, lc.valueBytes...)
			}
			c.Cells = append(c.Cells, cell)
		}
	} else {
		c.Phys = len(n.internalCells)
		for _, o := range n.offsets {
			ic := n.internalCells[o]
			c.Cells = append(c.Cells, VerifCodecCell{Key: ic.key, Child: ic.fileOffset})
		}
	}
	return c, nil
}

// Encode is btreeNode.encode.
func (v *VerifCodecNode) Encode() (b []byte, err error) {
	defer verifCodecRecover(&err)
	buf, err := v.n.encode()
	if err != nil {
		return nil, err
	}
	return buf.Bytes(), nil
}

// VerifCodecDecode dispatches on the first byte like fileStore.fetch and runs btreeNode.decode.
func VerifCodecDecode(b []byte) (v *VerifCodecNode, err error) {
	defer verifCodecRecover(&err)
	n := &btreeNode{}
	switch b[0] {
	case InternalNode:
		n.isLeaf = false
	case LeafNode:
		n.isLeaf = true
	default:
		return nil, fmt.Errorf("invalid node type value %d", b[0])
	}
	if err := n.decode(bytes.NewBuffer(b)); err != nil {
		return nil, err
	}
	return &VerifCodecNode{n: n}, nil
}

// VerifCodecStore is a bare fileStore (no header, no WAL, flusher off).
type VerifCodecStore struct{ fs *fileStore }

func VerifCodecOpen(path string) (*VerifCodecStore, error) {
	fs, err := newFileStore(path, false)
	if err != nil {
		return nil, err
	}
	if fs.autoFlushCache {
		return nil, fmt.Errorf("flusher could not be switched off")
	}
	return &VerifCodecStore{fs: fs}, nil
}

func (s *VerifCodecStore) Update(v *VerifCodecNode) (err error) {
	defer verifCodecRecover(&err)
	return s.fs.update(v.n)
}

func (s *VerifCodecStore) Cached(off uint64) bool {
	_, ok := s.fs.cache.cache[off]
	return ok
}

func (s *VerifCodecStore) Fetch(off uint64) (v *VerifCodecNode, err error) {
	defer verifCodecRecover(&err)
	n, err := s.fs.fetch(off)
	if err != nil {
		return nil, err
	}
	return &VerifCodecNode{n: n}, nil
}

// Close closes the file without flushing (nothing is dirty: update writes through).
func (s *VerifCodecStore) Close() error { return s.fs.file.Close() }
