//go:build verif

package storage

// Accessors for the verification harness (added to the package through
// `go build -overlay`; not part of the repository). They only read internal
// state, call existing internal functions, or install the verif hooks.

import (
	"time"
	"bytes"
	"encoding/binary"
	"io"
	"os"
	"sync"
)

// ---- hooks

// VerifAutoFlushOff disables the 100 ms background flusher of every store
// opened from now on (hook H1); flushes are then issued by the harness.
func VerifAutoFlushOff() { verifHookAutoFlush = func(bool) bool { return false } }

// VerifAutoFlushDefault restores the code's own choice.
func VerifAutoFlushDefault() { verifHookAutoFlush = nil }

// VerifSetCaps makes nodes split at the given cell counts (hook H5); 0,0 restores
// the production capacities.
func VerifSetCaps(leaf, internal int) {
	if leaf == 0 && internal == 0 {
		verifHookIsFull = nil
		return
	}
	verifHookIsFull = func(n *btreeNode) (bool, bool) {
		if n.isLeaf {
			return len(n.offsets) >= leaf, true
		}
		return len(n.offsets) >= internal, true
	}
}

// VerifIO is one write the code was about to issue.
type VerifIO struct {
	File string // "tbl" or "wal"
	Kind string // page | hdr | len | body | sync
	Off  int64
	Data []byte
}

var (
	verifIOMu  sync.Mutex
	verifIOLog []VerifIO
	verifIOOn  bool
)

// VerifRecordIO switches recording of data-file and log writes on or off
// (hooks H3/H4) and clears the record.
func VerifRecordIO(on bool) {
	verifIOMu.Lock()
	defer verifIOMu.Unlock()
	verifIOOn = on
	verifIOLog = nil
	// the hooks stay installed: they also feed the order trace (zz_verif_order.go)
	verifHookIO = func(f *fileStore, kind string, off int64, b []byte) {
		if kind == "page" && verifFailAt > 0 {
			verifFailAt--
			if verifFailAt == 0 {
				// the write that follows this hook fails: the file is closed under it (reopened by VerifRepairFile)
				f.file.Close()
				verifFailedStore = f
				verifOrderIO("pagefail", off, b)
				return
			}
		}
		verifOrderIO(kind, off, b)
		verifIOMu.Lock()
		if verifIOOn {
			verifIOLog = append(verifIOLog, VerifIO{File: "tbl", Kind: kind, Off: off, Data: append([]byte(nil), b...)})
		}
		verifIOMu.Unlock()
	}
	verifHookWalIO = func(w *wal, kind string, b []byte) {
		verifOrderWalIO(kind, b)
		verifIOMu.Lock()
		if verifIOOn {
			verifIOLog = append(verifIOLog, VerifIO{File: "wal", Kind: kind, Data: append([]byte(nil), b...)})
		}
		verifIOMu.Unlock()
	}
}

// ---- write faults: the k-th page write from now fails with an I/O error

var (
	verifFailAt      int
	verifFailedStore *fileStore
)

// VerifFailPageWrite makes the k-th page write from now fail (k >= 1); 0 switches the fault off.
func VerifFailPageWrite(k int) { verifFailAt = k }

// VerifDuringNextPageWrite runs fn once, from inside the I/O hook of the next page write of any store - i.e. after that page
// was serialised and before it reaches the file, while its store's exclusive lock is held.  Stores have a lock each, so
// whatever fn does to ANOTHER store is a legal interleaving of the two.  It reports (through the returned function) whether
// fn has run.
func VerifDuringNextPageWrite(fn func()) (fired func() bool) {
	prev := verifHookIO
	done := false
	verifHookIO = func(f *fileStore, kind string, off int64, b []byte) {
		if prev != nil {
			prev(f, kind, off, b)
		}
		if kind == "page" && !done {
			done = true
			verifHookIO = prev
			fn()
		}
	}
	return func() bool {
		if !done {
			verifHookIO = prev
		}
		return done
	}
}

// VerifBreakFile closes the data file under the store: every read (and write) fails until VerifRepairFile.
func VerifBreakFile(rs *RelationService) {
	rs.fs.file.Close()
	verifFailedStore = rs.fs
}

// VerifRepairFile reopens the data file after an injected write fault; it reports whether a fault had struck.
func VerifRepairFile() (bool, error) {
	verifFailAt = 0
	f := verifFailedStore
	if f == nil {
		return false, nil
	}
	verifFailedStore = nil
	nf, err := os.OpenFile(f.file.Name(), os.O_RDWR, 0644)
	if err != nil {
		return true, err
	}
	f.file = nf
	return true, nil
}

// VerifEvictClean removes every clean page from the cache (what an LRU under pressure is entitled to do) and
// returns how many went.
func VerifEvictClean(rs *RelationService) int {
	c := rs.fs.cache
	n := 0
	for e := c.list.Front(); e != nil; {
		next := e.Next()
		ce := e.Value.(*cacheEntry)
		if !ce.val.isDirty() {
			c.list.Remove(e)
			delete(c.cache, ce.key)
			n++
		}
		e = next
	}
	return n
}

// VerifTakeIO returns and clears the recorded writes.
func VerifTakeIO() []VerifIO {
	verifIOMu.Lock()
	defer verifIOMu.Unlock()
	r := verifIOLog
	verifIOLog = nil
	return r
}

// VerifStallStoreOpen makes every store that is opened from now on pause for d right after it was set up (hook H2 sits at
// the end of newFileStore): the scheduler may suspend a process anywhere. VerifStallStoreOpen(0) ends it.
func VerifStallStoreOpen(d time.Duration) {
	if d == 0 {
		verifHookStoreOpened = nil
		return
	}
	verifHookStoreOpened = func(f *fileStore) { time.Sleep(d) }
}

// ---- store registry (hook H2): which stores are open, so that a "tick" can be
// delivered to every one of them, including one a session abandoned.

var (
	verifOpenMu sync.Mutex
	verifOpen   []*fileStore
)

func VerifTrackStores() {
	verifHookStoreOpened = func(f *fileStore) {
		verifOpenMu.Lock()
		verifOpen = append(verifOpen, f)
		verifOpenMu.Unlock()
	}
	verifHookStoreClosed = func(f *fileStore) {
		verifOpenMu.Lock()
		for i, x := range verifOpen {
			if x == f {
				verifOpen = append(verifOpen[:i], verifOpen[i+1:]...)
				break
			}
		}
		verifOpenMu.Unlock()
	}
}

// VerifOpenStores is the number of stores opened and not closed.
func VerifOpenStores() int {
	verifOpenMu.Lock()
	defer verifOpenMu.Unlock()
	return len(verifOpen)
}

// VerifTickAll does what 100 ms of wall time does: one flushPages on every
// store that is still open.
func VerifTickAll() error {
	verifOpenMu.Lock()
	open := append([]*fileStore(nil), verifOpen...)
	verifOpenMu.Unlock()
	for _, f := range open {
		if err := f.flushPages(); err != nil {
			return err
		}
	}
	return nil
}

// VerifForgetStores drops the registry (the process "died").
func VerifForgetStores() {
	verifOpenMu.Lock()
	for _, f := range verifOpen {
		f.file.Close()
	}
	verifOpen = nil
	verifOpenMu.Unlock()
}

// ---- driving a RelationService

// VerifFlush is one run of the flusher.
func VerifFlush(rs *RelationService) error { return rs.fs.flushPages() }

// VerifAbandon closes the file handles without flushing anything: the process died.
func VerifAbandon(rs *RelationService) {
	if rs == nil {
		return
	}
	if rs.fs != nil {
		verifStoreClosed(rs.fs)
		if rs.fs.autoFlushCache && rs.fs.ticker != nil {
			rs.fs.ticker.Stop()
			select {
			case rs.fs.tickerDone <- true:
			default:
			}
		}
		rs.fs.file.Close()
	}
	if rs.wal != nil {
		rs.wal.close()
	}
}

// VerifDirtyCount is the number of dirty pages in the cache.
func VerifDirtyCount(rs *RelationService) int {
	n := 0
	for _, e := range rs.fs.cache.cache {
		if e.Value.(*cacheEntry).val.isDirty() {
			n++
		}
	}
	return n
}

// VerifSetCache replaces the page cache by an empty one of the given capacity.
// Only legal when no page is dirty (returns false otherwise).
func VerifSetCache(rs *RelationService, capacity int) bool {
	if VerifDirtyCount(rs) != 0 {
		return false
	}
	rs.fs.cache = NewLRU(capacity)
	return true
}

// VerifCacheLen is the number of resident pages.
func VerifCacheLen(rs *RelationService) int { return len(rs.fs.cache.cache) }

// ---- projection of pages

// VerifPage is the logical content of one page.
type VerifPage struct {
	ID    int      `json:"id"`
	Kind  string   `json:"kind"` // L | I | Z (all zero / unreadable)
	Keys  []uint32 `json:"keys"`
	Dead  []int    `json:"dead"`
	Kids  []int    `json:"kids"`
	L     int      `json:"l"`
	R     int      `json:"r"`
	LSN   uint64   `json:"lsn"`
	Dirty bool     `json:"dirty"`
	Vals  [][]byte `json:"-"`
}

func verifProject(id int, n *btreeNode) VerifPage {
	p := VerifPage{ID: id, LSN: n.lastLSN, Dirty: n.dirty, Keys: []uint32{}, Dead: []int{}, Kids: []int{}}
	if n.isLeaf {
		p.Kind = "L"
		for _, o := range n.offsets {
			c := n.leafCells[o]
			p.Keys = append(p.Keys, c.key)
			d := 0
			if c.deleted {
				d = 1
			}
			p.Dead = append(p.Dead, d)
			p.Vals = append(p.Vals, c.valueBytes)
		}
		if n.hasLSib {
			p.L = int(n.lSibFileOffset / pageSize)
		}
		if n.hasRSib {
			p.R = int(n.rSibFileOffset / pageSize)
		}
		return p
	}
	p.Kind = "I"
	for _, o := range n.offsets {
		c := n.internalCells[o]
		p.Keys = append(p.Keys, c.key)
		p.Kids = append(p.Kids, int(c.fileOffset/pageSize))
	}
	p.Kids = append(p.Kids, int(n.rightOffset/pageSize))
	return p
}

func verifDecodePage(buf []byte) (*btreeNode, bool) {
	if len(buf) < pageSize {
		return nil, false
	}
	n := &btreeNode{}
	switch buf[0] {
	case InternalNode:
	case LeafNode:
		n.isLeaf = true
	default:
		return nil, false
	}
	ok := true
	func() {
		defer func() {
			if recover() != nil {
				ok = false
			}
		}()
		if err := n.decode(bytes.NewBuffer(buf)); err != nil {
			ok = false
		}
	}()
	return n, ok
}

// VerifHeader is the data file's header.
type VerifHeader struct {
	LastKey uint32 `json:"lastKey"`
	PtRoot  int    `json:"ptRoot"`
	Nx      int    `json:"nx"`
	LSN     uint64 `json:"lsn"`
}

// verifDecodeHeader reads the four header fields out of the first bytes of a data file with the package's own reader
// (fileStore.open on a scratch file), so that the layout of the header is the package's business alone.
func verifDecodeHeader(b []byte) (h VerifHeader, ok bool) {
	if len(b) == 0 {
		return h, false
	}
	if len(b) > pageSize {
		b = b[:pageSize]
	}
	tmp, err := os.CreateTemp(".", "verif-hdr-*")
	if err != nil {
		return h, false
	}
	defer os.Remove(tmp.Name())
	defer tmp.Close()
	if _, err := tmp.Write(b); err != nil {
		return h, false
	}
	if _, err := tmp.Seek(0, 0); err != nil {
		return h, false
	}
	fs := &fileStore{file: tmp}
	if err := fs.open(); err != nil {
		return h, false
	}
	return VerifHeader{LastKey: fs.lastKey, PtRoot: int(fs.pageTableRoot / pageSize), Nx: int(fs.nextFreeOffset / pageSize), LSN: fs._nextLSN}, true
}

// VerifDumpFile decodes a data file (header + every page) without any cache.
func VerifDumpFile(path string) (VerifHeader, []VerifPage, error) {
	var h VerifHeader
	b, err := os.ReadFile(path)
	if err != nil {
		return h, nil, err
	}
	if hd, ok := verifDecodeHeader(b); ok {
		h = hd
	}
	var pages []VerifPage
	for id := 1; id*pageSize < len(b); id++ {
		end := (id + 1) * pageSize
		buf := make([]byte, pageSize)
		if end > len(b) {
			copy(buf, b[id*pageSize:])
		} else {
			copy(buf, b[id*pageSize:end])
		}
		n, ok := verifDecodePage(buf)
		if !ok {
			pages = append(pages, VerifPage{ID: id, Kind: "Z"})
			continue
		}
		pages = append(pages, verifProject(id, n))
	}
	return h, pages, nil
}

// VerifDumpView is what the open store sees: cached pages over the file, and
// the in-memory header. It does not touch the cache (no recency change, no fetch).
func VerifDumpView(rs *RelationService) (VerifHeader, []VerifPage) {
	f := rs.fs
	h := VerifHeader{LastKey: f.lastKey, PtRoot: int(f.pageTableRoot / pageSize), Nx: int(f.nextFreeOffset / pageSize), LSN: f._nextLSN}
	var pages []VerifPage
	for id := 1; id < h.Nx; id++ {
		off := uint64(id) * pageSize
		if e, ok := f.cache.cache[off]; ok {
			pages = append(pages, verifProject(id, e.Value.(*cacheEntry).val))
			continue
		}
		buf := make([]byte, pageSize)
		if _, err := f.file.ReadAt(buf, int64(off)); err != nil && err != io.EOF {
			pages = append(pages, VerifPage{ID: id, Kind: "Z"})
			continue
		}
		n, ok := verifDecodePage(buf)
		if !ok {
			pages = append(pages, VerifPage{ID: id, Kind: "Z"})
			continue
		}
		pages = append(pages, verifProject(id, n))
	}
	return h, pages
}

// VerifRoots returns name -> root page for every table in the catalog, as the
// engine resolves them.
func VerifRoots(rs *RelationService, names []string) map[string]int {
	m := map[string]int{}
	for _, n := range names {
		off, err := rs.getRelationFileOffset(n)
		if err == nil {
			m[n] = int(off / pageSize)
		}
	}
	return m
}

// VerifWalRec is one complete record of a log file.
type VerifWalRec struct {
	Op  int    `json:"op"`
	LSN uint64 `json:"lsn"`
	Pg  int    `json:"pg"`
	Key uint32 `json:"k"`
}

// VerifDumpWal decodes a log file; tail is the number of bytes after the last complete record.
func VerifDumpWal(path string) (recs []VerifWalRec, tail int, err error) {
	b, err := os.ReadFile(path)
	if err != nil {
		return nil, 0, err
	}
	for len(b) >= 4 {
		l := int(binary.LittleEndian.Uint32(b[:4]))
		if l == 0 || len(b) < 4+l || l < 25 {
			break
		}
		body := b[4 : 4+l]
		var e WALEntry
		if derr := e.decode(bytes.NewBuffer(append([]byte(nil), body...))); derr != nil {
			break
		}
		recs = append(recs, VerifWalRec{Op: int(e.WALOp), LSN: e.LSN, Pg: int(e.pageID / pageSize), Key: e.cellID})
		b = b[4+l:]
	}
	return recs, len(b), nil
}

// VerifLookupAll runs the engine's own point lookup (BTree.findCell) from the
// table's root for every key the forward scan returns, and the backward scan;
// it reports keys the lookup misses and whether the two scans are reverses.
func VerifLookupAll(rs *RelationService, table string) (missing []uint32, fwd []uint32, bwd []uint32, err error) {
	off, err := rs.getRelationFileOffset(table)
	if err != nil {
		return nil, nil, nil, err
	}
	pg, err := rs.fs.fetch(uint64(off))
	if err != nil {
		return nil, nil, nil, err
	}
	bt := &BTree{store: rs.fs}
	bt.setRoot(pg)
	if err := bt.scanRight(func(c *leafCell) (ScanAction, error) { fwd = append(fwd, c.key); return KeepScanning, nil }); err != nil {
		return nil, nil, nil, err
	}
	if err := bt.scanLeft(func(c *leafCell) (ScanAction, error) { bwd = append(bwd, c.key); return KeepScanning, nil }); err != nil {
		return nil, nil, nil, err
	}
	for _, k := range fwd {
		c, err := bt.findCell(k)
		if err != nil {
			return nil, nil, nil, err
		}
		if c == nil || c.key != k {
			missing = append(missing, k)
		}
	}
	return missing, fwd, bwd, nil
}
