//go:build verif

package storage

import (
	"bytes"
	"sync"
)

// Order recording for WalOrder.tla: one event per lock transition, page
// stamp, data-file write and log write, in the order the store performs them.
// Events are appended under one mutex from inside the hooks, i.e. while the
// store still holds the lock that protects the step.

// VerifOrderEv is one event of the order trace.
type VerifOrderEv struct {
	E    string `json:"e"`              // S+ S- X+ X- dirty page hdr wal sync
	ID   int    `json:"id"` // page number (dirty, page, wal)
	LSN  uint64 `json:"lsn"` // LSN stamped / on the written page / of the log record
	Next uint64 `json:"next"` // hdr: next LSN
	Nx   int    `json:"nx"` // hdr: next free page
}

var (
	verifOrderMu  sync.Mutex
	verifOrderLog []VerifOrderEv
	verifOrderOn  bool
)

func verifOrderAdd(e VerifOrderEv) {
	verifOrderMu.Lock()
	if verifOrderOn {
		verifOrderLog = append(verifOrderLog, e)
	}
	verifOrderMu.Unlock()
}

// VerifRecordOrder switches order recording on or off and clears the record.
func VerifRecordOrder(on bool) {
	verifOrderMu.Lock()
	verifOrderOn = on
	verifOrderLog = nil
	verifOrderMu.Unlock()
	if !on {
		verifHookEv, verifHookDirty = nil, nil
		return
	}
	verifHookEv = func(f *fileStore, kind string) {
		if kind != "X?" {
			verifOrderAdd(VerifOrderEv{E: kind})
		}
	}
	verifHookDirty = func(n *btreeNode) {
		verifOrderAdd(VerifOrderEv{E: "dirty", ID: int(n.getFileOffset() / pageSize), LSN: n.lastLSN})
	}
}

// VerifTakeOrder returns and clears the recorded order events.
func VerifTakeOrder() []VerifOrderEv {
	verifOrderMu.Lock()
	defer verifOrderMu.Unlock()
	r := verifOrderLog
	verifOrderLog = nil
	return r
}

// verifOrderIO / verifOrderWalIO are called from the I/O hooks installed by VerifRecordIO.
func verifOrderIO(kind string, off int64, b []byte) {
	verifOrderMu.Lock()
	on := verifOrderOn
	verifOrderMu.Unlock()
	if !on {
		return
	}
	switch kind {
	case "page", "pagefail":
		e := VerifOrderEv{E: kind, ID: int(off / pageSize)}
		if n, ok := verifDecodePage(b); ok {
			e.LSN = n.lastLSN
		}
		verifOrderAdd(e)
	case "hdr":
		e := VerifOrderEv{E: "hdr"}
		if h, ok := verifDecodeHeader(b); ok {
			e.Nx = h.Nx
			e.Next = h.LSN
		}
		verifOrderAdd(e)
	}
}

func verifOrderWalIO(kind string, b []byte) {
	verifOrderMu.Lock()
	on := verifOrderOn
	verifOrderMu.Unlock()
	if !on {
		return
	}
	switch kind {
	case "body":
		e := VerifOrderEv{E: "wal"}
		var w WALEntry
		if err := w.decode(bytes.NewBuffer(append([]byte(nil), b...))); err == nil {
			e.LSN = w.LSN
			e.ID = int(w.pageID / pageSize)
		}
		verifOrderAdd(e)
	case "sync":
		verifOrderAdd(VerifOrderEv{E: "sync"})
	}
}
