//go:build verif

package engine

// VerifParseSQL is parseSQL: what Session.ExecQuery does to the text of a statement before it dispatches on the
// statement's kind. The front-end checks (C09, C10) parse through it, so that they judge what a session would execute.
func VerifParseSQL(q string) (interface{}, error) { return parseSQL(q) }
