#!/bin/sh
# Offline setup: check the tools, parse every specification, build the harness once.
set -e
cd "$(dirname "$0")"
export GOFLAGS=-mod=mod GOPROXY=off GOSUMDB=off GOTOOLCHAIN=local
command -v tlc >/dev/null || { echo "tlc not found"; exit 1; }
command -v go >/dev/null || { echo "go not found"; exit 1; }
command -v python3 >/dev/null || { echo "python3 not found"; exit 1; }
command -v tlapm >/dev/null || { echo "tlapm not found"; exit 1; }
tmp=$(mktemp -d)
trap 'rm -rf "$tmp"' EXIT
cp spec/*.tla "$tmp"/
for f in "$tmp"/*.tla; do
  case "$f" in
    *Proof.tla)  # proof modules extend TLAPS (the proof system's library): checked by the proof system itself
      (cd "$tmp" && timeout 600 tlapm --threads 8 "$(basename "$f")" >"$tmp/tlapm.out" 2>&1 && grep -q "obligations proved" "$tmp/tlapm.out") || { echo "tlapm failed on $f"; tail -20 "$tmp/tlapm.out"; exit 1; } ;;
    *)
      (cd "$tmp" && timeout 120 tla-sany "$(basename "$f")" >"$tmp/sany.out" 2>&1) || { echo "SANY failed on $f"; cat "$tmp/sany.out"; exit 1; } ;;
  esac
done
python3 tools/selftest.py || { echo "binding self-test failed"; exit 1; }
echo "setup ok: $(ls spec/*.tla | wc -l) modules parsed"
